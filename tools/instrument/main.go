// instrument rewrites Go source files of the repository so that their synchronisation
// operations go through the vsched shims (see /verif/DESIGN.md §3.3, Appendix B).
//
// usage: instrument -spec spec.json
//
//	spec: {"repo": "/repo", "out": "/scratch/dir", "jobs": [ {
//	    "dir": "/repo/gsfa", "pkg": "github.com/rpcpool/yellowstone-faithful/gsfa",
//	    "files": ["gsfa-write.go"], "sync": true, "maprange": false,
//	    "rules": ["const:itemsPerBatch=2", "var:howManyBuffersToFlushConcurrently=2",
//	              "makecap:fullBufferWriterChan=1", "lit:Push:500=2"],
//	    "imports": {"golang.org/x/sync/errgroup": "github.com/.../zzverif/verrgroup"},
//	    "as": "/repo/zzverif/verrgroup/errgroup.go"   (optional: overlay target path, single file)
//	} ] }
//
// output (stdout): {"overlay": {"<target path>": "<written file>"}, "unmatched_rules": [...], "rewrites": {...}}
// exit 2: cannot instrument (unsupported construct); never used to signal a property violation.
package main

import (
	"bytes"
	"encoding/json"
	"flag"
	"fmt"
	"go/ast"
	"go/importer"
	"go/parser"
	"go/printer"
	"go/token"
	"go/types"
	"io"
	"os"
	"os/exec"
	"path/filepath"
	"reflect"
	"strconv"
	"strings"
)

const modPath = "github.com/rpcpool/yellowstone-faithful"
const vschedPath = modPath + "/zzverif/vsched"
const vsyncPath = modPath + "/zzverif/vsync"
const vatomicPath = modPath + "/zzverif/vatomic"

type Job struct {
	Dir      string   `json:"dir"`
	Pkg      string   `json:"pkg"`
	Files    []string `json:"files"`
	Sync     bool     `json:"sync"`
	MapRange bool     `json:"maprange"`
	// MapRangeOnly, when non-empty, restricts the map-range rewrite to ranges over these expressions (source text)
	MapRangeOnly []string          `json:"maprange_only"`
	Rules        []string          `json:"rules"`
	Imports      map[string]string `json:"imports"`
	As           string            `json:"as"`
	AsDir        string            `json:"as_dir"`
	PkgName      string            `json:"pkgname"`    // rename the package clause (virtual copies)
	RulesOnly    bool              `json:"rules_only"` // apply only the constant rules (no sync/channel rewriting)
}

type Spec struct {
	Repo string `json:"repo"`
	Out  string `json:"out"`
	Jobs []Job  `json:"jobs"`
}

type Output struct {
	Overlay   map[string]string `json:"overlay"`
	Unmatched []string          `json:"unmatched_rules"`
	Rewrites  map[string]int    `json:"rewrites"`
}

func die(code int, f string, a ...interface{}) {
	fmt.Fprintf(os.Stderr, "instrument: "+f+"\n", a...)
	os.Exit(code)
}

func main() {
	specPath := flag.String("spec", "", "spec file")
	flag.Parse()
	raw, err := os.ReadFile(*specPath)
	if err != nil {
		die(2, "%v", err)
	}
	var spec Spec
	if err := json.Unmarshal(raw, &spec); err != nil {
		die(2, "%v", err)
	}
	out := Output{Overlay: map[string]string{}, Rewrites: map[string]int{}}
	if err := os.MkdirAll(spec.Out, 0o755); err != nil {
		die(2, "%v", err)
	}
	for ji, job := range spec.Jobs {
		r := &rewriter{job: job, out: &out}
		r.run(spec, ji)
	}
	enc := json.NewEncoder(os.Stdout)
	enc.SetIndent("", " ")
	enc.Encode(out)
}

type rewriter struct {
	job      Job
	out      *Output
	fset     *token.FileSet
	info     *types.Info
	recv2    map[ast.Expr]bool
	usedV    bool
	ruleHit  map[string]int
	curFunc  string
	tmpN     int
	fileName string
}

func exportLookup(repo, pkg string) (func(path string) (io.ReadCloser, error), error) {
	cmd := exec.Command("go", "list", "-export", "-deps", "-f", "{{.ImportPath}}\t{{.Export}}", pkg)
	cmd.Dir = repo
	cmd.Env = append(os.Environ(), "GOPROXY=off", "GOSUMDB=off", "GOTOOLCHAIN=local")
	if os.Getenv("GOFLAGS") == "" {
		cmd.Env = append(cmd.Env, "GOFLAGS=-mod=mod")
	}
	var stderr bytes.Buffer
	cmd.Stderr = &stderr
	b, err := cmd.Output()
	if err != nil {
		return nil, fmt.Errorf("go list -export %s: %v\n%s", pkg, err, stderr.String())
	}
	m := map[string]string{}
	for _, ln := range strings.Split(string(b), "\n") {
		parts := strings.SplitN(ln, "\t", 2)
		if len(parts) == 2 && parts[1] != "" {
			m[parts[0]] = parts[1]
		}
	}
	return func(path string) (io.ReadCloser, error) {
		f, ok := m[path]
		if !ok {
			return nil, fmt.Errorf("no export data for %s", path)
		}
		return os.Open(f)
	}, nil
}

func (r *rewriter) run(spec Spec, ji int) {
	job := r.job
	r.fset = token.NewFileSet()
	r.ruleHit = map[string]int{}
	ents, err := os.ReadDir(job.Dir)
	if err != nil {
		die(2, "%v", err)
	}
	var files []*ast.File
	byName := map[string]*ast.File{}
	var pkgName string
	for _, e := range ents {
		n := e.Name()
		if !strings.HasSuffix(n, ".go") || strings.HasSuffix(n, "_test.go") {
			continue
		}
		f, err := parser.ParseFile(r.fset, filepath.Join(job.Dir, n), nil, parser.ParseComments|parser.SkipObjectResolution)
		if err != nil {
			die(2, "parse %s: %v", n, err)
		}
		if !buildOK(f) {
			continue
		}
		if pkgName == "" {
			pkgName = f.Name.Name
		}
		if f.Name.Name != pkgName {
			continue
		}
		files = append(files, f)
		byName[n] = f
	}
	// type information (best effort)
	r.info = &types.Info{Types: map[ast.Expr]types.TypeAndValue{}, Uses: map[*ast.Ident]types.Object{}, Defs: map[*ast.Ident]types.Object{}}
	if job.Pkg != "" {
		lookup, err := exportLookup(spec.Repo, job.Pkg)
		if err != nil {
			fmt.Fprintf(os.Stderr, "instrument: warning: %v (continuing without type info)\n", err)
		} else {
			conf := types.Config{Importer: importer.ForCompiler(r.fset, "gc", lookup), Error: func(error) {}}
			conf.Check(job.Pkg, r.fset, files, r.info)
		}
	}
	for _, name := range job.Files {
		f := byName[name]
		if f == nil {
			die(2, "file %s not found in %s", name, job.Dir)
		}
		r.fileName = name
		bcOrig := buildConstraint(f)
		r.rewriteFile(f)
		var buf bytes.Buffer
		if err := (&printer.Config{Mode: printer.UseSpaces | printer.TabIndent, Tabwidth: 8}).Fprint(&buf, token.NewFileSet(), f); err != nil {
			die(2, "print %s: %v", name, err)
		}
		constraint := "verif"
		if bc := bcOrig; bc != "" {
			constraint = "verif && (" + bc + ")"
		}
		src := "//go:build " + constraint + "\n\n// Code generated by /verif/tools/instrument from " + filepath.Join(job.Dir, name) + "; DO NOT EDIT.\n\n" + buf.String()
		// sanity: must parse
		if _, err := parser.ParseFile(token.NewFileSet(), name, src, 0); err != nil {
			os.WriteFile(filepath.Join(spec.Out, "FAILED_"+name), []byte(src), 0o644)
			die(2, "rewritten %s does not parse: %v", name, err)
		}
		dst := filepath.Join(spec.Out, fmt.Sprintf("j%d_%s", ji, name))
		if err := os.WriteFile(dst, []byte(src), 0o644); err != nil {
			die(2, "%v", err)
		}
		target := filepath.Join(job.Dir, name)
		if job.As != "" {
			target = job.As
		}
		if job.AsDir != "" {
			target = filepath.Join(job.AsDir, name)
		}
		r.out.Overlay[target] = dst
	}
	for _, rule := range job.Rules {
		if r.ruleHit[rule] == 0 {
			r.out.Unmatched = append(r.out.Unmatched, job.Dir+": "+rule)
		}
	}
}

func buildConstraint(f *ast.File) string {
	for _, cg := range f.Comments {
		if cg.Pos() > f.Package {
			break
		}
		for _, c := range cg.List {
			if strings.HasPrefix(c.Text, "//go:build ") {
				return strings.TrimSpace(strings.TrimPrefix(c.Text, "//go:build "))
			}
		}
	}
	return ""
}

func buildOK(f *ast.File) bool {
	for _, cg := range f.Comments {
		if cg.Pos() > f.Package {
			break
		}
		for _, c := range cg.List {
			if strings.HasPrefix(c.Text, "//go:build ") {
				expr := strings.TrimPrefix(c.Text, "//go:build ")
				if strings.Contains(expr, "ignore") || expr == "verif" {
					return false
				}
			}
		}
	}
	return true
}

func (r *rewriter) count(k string) { r.out.Rewrites[r.fileName+":"+k]++ }

func (r *rewriter) src(n interface{}) string {
	var buf bytes.Buffer
	if err := printer.Fprint(&buf, token.NewFileSet(), n); err != nil {
		die(2, "print: %v", err)
	}
	return buf.String()
}

func (r *rewriter) parseStmts(code string) []ast.Stmt {
	f, err := parser.ParseFile(token.NewFileSet(), "x.go", "package p\nfunc _() {\n"+code+"\n}", parser.SkipObjectResolution)
	if err != nil {
		die(2, "internal: generated code does not parse: %v\n%s", err, code)
	}
	body := f.Decls[0].(*ast.FuncDecl).Body.List
	for _, s := range body {
		clearPos(s)
	}
	return body
}

func (r *rewriter) parseExpr(code string) ast.Expr {
	e, err := parser.ParseExpr(code)
	if err != nil {
		die(2, "internal: generated expr does not parse: %v\n%s", err, code)
	}
	clearPos(e)
	return e
}

// clearPos zeroes all positions in a generated subtree so the printer lays it out freshly.
func clearPos(n ast.Node) {
	ast.Inspect(n, func(n ast.Node) bool {
		if n == nil {
			return false
		}
		v := reflect.ValueOf(n)
		if v.Kind() == reflect.Ptr {
			v = v.Elem()
		}
		if v.Kind() != reflect.Struct {
			return true
		}
		for i := 0; i < v.NumField(); i++ {
			f := v.Field(i)
			if f.Type() == reflect.TypeOf(token.Pos(0)) && f.CanSet() {
				f.SetInt(0)
			}
		}
		return true
	})
}

func (r *rewriter) typeOf(e ast.Expr) types.Type {
	if tv, ok := r.info.Types[e]; ok {
		return tv.Type
	}
	if id, ok := e.(*ast.Ident); ok {
		if o := r.info.Uses[id]; o != nil {
			return o.Type()
		}
		if o := r.info.Defs[id]; o != nil {
			return o.Type()
		}
	}
	return nil
}

func (r *rewriter) chanDir(e ast.Expr) (isChan bool, dir types.ChanDir, elem types.Type, known bool) {
	t := r.typeOf(e)
	if t == nil {
		return false, 0, nil, false
	}
	if tp, ok := t.(*types.TypeParam); ok {
		t = tp.Constraint()
	}
	c, ok := t.Underlying().(*types.Chan)
	if !ok {
		return false, 0, nil, true
	}
	return true, c.Dir(), c.Elem(), true
}

func isTimeTime(t types.Type) bool {
	if t == nil {
		return false
	}
	n, ok := t.(*types.Named)
	return ok && n.Obj().Pkg() != nil && n.Obj().Pkg().Path() == "time" && n.Obj().Name() == "Time"
}

// foreign reports whether e is a receive-only channel the code does not own (ctx.Done()).
func (r *rewriter) foreign(e ast.Expr) bool {
	isChan, dir, _, known := r.chanDir(e)
	if known {
		return isChan && dir == types.RecvOnly
	}
	if c, ok := e.(*ast.CallExpr); ok {
		if s, ok := c.Fun.(*ast.SelectorExpr); ok && s.Sel.Name == "Done" {
			return true
		}
	}
	return false
}

func (r *rewriter) isTimeAfterCall(e ast.Expr) (ast.Expr, bool) {
	c, ok := e.(*ast.CallExpr)
	if !ok {
		return nil, false
	}
	s, ok := c.Fun.(*ast.SelectorExpr)
	if !ok {
		return nil, false
	}
	id, ok := s.X.(*ast.Ident)
	if !ok || id.Name != "time" {
		return nil, false
	}
	if s.Sel.Name == "After" && len(c.Args) == 1 {
		return c.Args[0], true
	}
	return nil, false
}

func (r *rewriter) rewriteFile(f *ast.File) {
	// keep only the comments before the package clause
	f.Comments = nil
	f.Doc = nil
	if r.job.PkgName != "" {
		f.Name.Name = r.job.PkgName
	}
	r.recv2 = map[ast.Expr]bool{}
	r.usedV = false
	// constant rules first (on the original tree)
	r.applyRules(f)
	// strip remaining doc comments on decls (they were removed from f.Comments, printer would re-emit via Doc fields)
	ast.Inspect(f, func(n ast.Node) bool {
		switch d := n.(type) {
		case *ast.FuncDecl:
			d.Doc = nil
		case *ast.GenDecl:
			d.Doc = nil
		case *ast.TypeSpec:
			d.Doc, d.Comment = nil, nil
		case *ast.ValueSpec:
			d.Doc, d.Comment = nil, nil
		case *ast.Field:
			d.Doc, d.Comment = nil, nil
		case *ast.ImportSpec:
			d.Doc, d.Comment = nil, nil
		}
		return true
	})
	for _, d := range f.Decls {
		if r.job.RulesOnly {
			break
		}
		if fd, ok := d.(*ast.FuncDecl); ok {
			r.curFunc = fd.Name.Name
			if fd.Body != nil {
				fd.Body = r.rw(fd.Body).(*ast.BlockStmt)
			}
		} else {
			r.curFunc = ""
			r.rw(d)
		}
	}
	// imports
	for _, is := range f.Imports {
		p, _ := strconv.Unquote(is.Path.Value)
		np := ""
		if r.job.Sync {
			switch p {
			case "sync":
				np = vsyncPath
			case "sync/atomic":
				np = vatomicPath
			}
		}
		if v, ok := r.job.Imports[p]; ok {
			np = v
		}
		if np != "" {
			is.Path.Value = strconv.Quote(np)
			is.Path.ValuePos = 0
			r.count("import:" + p)
		}
	}
	if r.usedV {
		addImport(f, vschedPath, "vsched")
	}
}

func addImport(f *ast.File, path, name string) {
	spec := &ast.ImportSpec{Name: ast.NewIdent(name), Path: &ast.BasicLit{Kind: token.STRING, Value: strconv.Quote(path)}}
	for _, d := range f.Decls {
		if gd, ok := d.(*ast.GenDecl); ok && gd.Tok == token.IMPORT {
			gd.Specs = append(gd.Specs, spec)
			if gd.Lparen == 0 {
				gd.Lparen = gd.TokPos + 1
				gd.Rparen = gd.End()
			}
			f.Imports = append(f.Imports, spec)
			return
		}
	}
	gd := &ast.GenDecl{Tok: token.IMPORT, Specs: []ast.Spec{spec}}
	f.Decls = append([]ast.Decl{gd}, f.Decls...)
	f.Imports = append(f.Imports, spec)
}

// ---- constant rules ----

func (r *rewriter) applyRules(f *ast.File) {
	for _, rule := range r.job.Rules {
		kind, rest, _ := strings.Cut(rule, ":")
		lhs, val, ok := strings.Cut(rest, "=")
		if !ok {
			die(2, "bad rule %q", rule)
		}
		lit := func() ast.Expr { return &ast.BasicLit{Kind: token.INT, Value: val} }
		switch kind {
		case "const", "var":
			// replace the basic-literal initialiser of an identifier with this name
			ast.Inspect(f, func(n ast.Node) bool {
				switch s := n.(type) {
				case *ast.ValueSpec:
					for i, nm := range s.Names {
						if nm.Name == lhs && i < len(s.Values) {
							if _, ok := s.Values[i].(*ast.BasicLit); ok {
								s.Values[i] = lit()
								r.ruleHit[rule]++
							}
						}
					}
				case *ast.AssignStmt:
					for i, l := range s.Lhs {
						if id, ok := l.(*ast.Ident); ok && id.Name == lhs && i < len(s.Rhs) {
							if _, ok := s.Rhs[i].(*ast.BasicLit); ok {
								s.Rhs[i] = lit()
								r.ruleHit[rule]++
							}
						}
					}
				}
				return true
			})
		case "makecap":
			// field: make(chan T, N) inside a composite literal / assignment to a field or ident named lhs
			setCap := func(e ast.Expr) bool {
				c, ok := e.(*ast.CallExpr)
				if !ok {
					return false
				}
				id, ok := c.Fun.(*ast.Ident)
				if !ok || id.Name != "make" || len(c.Args) != 2 {
					return false
				}
				if _, ok := c.Args[1].(*ast.BasicLit); !ok {
					return false
				}
				c.Args[1] = lit()
				return true
			}
			ast.Inspect(f, func(n ast.Node) bool {
				switch s := n.(type) {
				case *ast.KeyValueExpr:
					if id, ok := s.Key.(*ast.Ident); ok && id.Name == lhs && setCap(s.Value) {
						r.ruleHit[rule]++
					}
				case *ast.AssignStmt:
					for i, l := range s.Lhs {
						name := ""
						switch x := l.(type) {
						case *ast.Ident:
							name = x.Name
						case *ast.SelectorExpr:
							name = x.Sel.Name
						}
						if name == lhs && i < len(s.Rhs) && setCap(s.Rhs[i]) {
							r.ruleHit[rule]++
						}
					}
				}
				return true
			})
		case "lit":
			// lit:<Func>:<old literal text>=<new>
			fn, old, ok := strings.Cut(lhs, ":")
			if !ok {
				die(2, "bad rule %q", rule)
			}
			for _, d := range f.Decls {
				fd, ok := d.(*ast.FuncDecl)
				if !ok || fd.Name.Name != fn || fd.Body == nil {
					continue
				}
				ast.Inspect(fd.Body, func(n ast.Node) bool {
					if bl, ok := n.(*ast.BasicLit); ok && bl.Kind == token.INT && bl.Value == old {
						bl.Value = val
						r.ruleHit[rule]++
					}
					return true
				})
			}
		default:
			die(2, "unknown rule kind %q", rule)
		}
	}
}

// ---- generic post-order rewriting by reflection ----

var (
	exprType = reflect.TypeOf((*ast.Expr)(nil)).Elem()
	stmtType = reflect.TypeOf((*ast.Stmt)(nil)).Elem()
	nodeType = reflect.TypeOf((*ast.Node)(nil)).Elem()
)

func (r *rewriter) rw(n ast.Node) ast.Node {
	if n == nil || reflect.ValueOf(n).IsNil() {
		return n
	}
	// pre-order hooks
	switch s := n.(type) {
	case *ast.AssignStmt:
		if len(s.Lhs) == 2 && len(s.Rhs) == 1 {
			if u, ok := s.Rhs[0].(*ast.UnaryExpr); ok && u.Op == token.ARROW {
				r.recv2[u] = true
			}
		}
	case *ast.ValueSpec:
		if len(s.Names) == 2 && len(s.Values) == 1 {
			if u, ok := s.Values[0].(*ast.UnaryExpr); ok && u.Op == token.ARROW {
				r.recv2[u] = true
			}
		}
	case *ast.SelectStmt:
		return r.rwSelect(s)
	case *ast.LabeledStmt:
		if _, ok := s.Stmt.(*ast.SelectStmt); ok {
			die(2, "%s: labeled select is not supported", r.fileName)
		}
	case *ast.FuncLit:
		// nothing special
	}
	// pre-capture type facts that need the original nodes
	var rangeIsChan, rangeIsMap bool
	var rangeForeign bool
	if rs, ok := n.(*ast.RangeStmt); ok {
		if t := r.typeOf(rs.X); t != nil {
			if tp, ok := t.(*types.TypeParam); ok {
				t = tp.Constraint()
			}
			switch t.Underlying().(type) {
			case *types.Chan:
				rangeIsChan = true
				rangeForeign = r.foreign(rs.X)
			case *types.Map:
				rangeIsMap = true
			}
		}
	}
	var unaryForeign, unaryTimer bool
	if u, ok := n.(*ast.UnaryExpr); ok && u.Op == token.ARROW {
		unaryForeign = r.foreign(u.X)
		_, _, elem, known := r.chanDir(u.X)
		unaryTimer = known && isTimeTime(elem)
	}
	lenOfChan := false
	if c, ok := n.(*ast.CallExpr); ok {
		if id, ok := c.Fun.(*ast.Ident); ok && id.Name == "len" && len(c.Args) == 1 {
			if isChan, dir, _, known := r.chanDir(c.Args[0]); known && isChan && dir == types.SendRecv {
				lenOfChan = true
			}
		}
	}
	closeIsBuiltin := false
	if c, ok := n.(*ast.CallExpr); ok {
		if id, ok := c.Fun.(*ast.Ident); ok && id.Name == "close" && len(c.Args) == 1 {
			o := r.info.Uses[id]
			if o == nil {
				closeIsBuiltin = true
			} else if _, ok := o.(*types.Builtin); ok {
				closeIsBuiltin = true
			}
		}
	}

	// children
	v := reflect.ValueOf(n).Elem()
	for i := 0; i < v.NumField(); i++ {
		f := v.Field(i)
		if !f.CanSet() {
			continue
		}
		switch f.Kind() {
		case reflect.Interface, reflect.Ptr:
			if f.IsNil() {
				continue
			}
			child, ok := f.Interface().(ast.Node)
			if !ok {
				continue
			}
			if _, isObj := f.Interface().(*ast.Object); isObj {
				continue
			}
			if _, isScope := f.Interface().(*ast.Scope); isScope {
				continue
			}
			nc := r.rw(child)
			if nc != child {
				f.Set(reflect.ValueOf(nc))
			}
		case reflect.Slice:
			for j := 0; j < f.Len(); j++ {
				e := f.Index(j)
				if e.Kind() != reflect.Interface && e.Kind() != reflect.Ptr {
					break
				}
				if e.IsNil() {
					continue
				}
				child, ok := e.Interface().(ast.Node)
				if !ok {
					break
				}
				nc := r.rw(child)
				if nc != child {
					e.Set(reflect.ValueOf(nc))
				}
			}
		}
	}

	// post-order transformations
	switch s := n.(type) {
	case *ast.GoStmt:
		r.usedV = true
		r.count("go")
		call := s.Call
		if fl, ok := call.Fun.(*ast.FuncLit); ok && len(call.Args) == 0 && fl.Type.Results == nil {
			return r.parseStmts("vsched.Go(" + r.src(fl) + ")")[0]
		}
		var b strings.Builder
		b.WriteString("{\n")
		fmt.Fprintf(&b, "_gf := %s\n", r.src(call.Fun))
		var names []string
		for i, a := range call.Args {
			nm := fmt.Sprintf("_ga%d", i)
			names = append(names, nm)
			fmt.Fprintf(&b, "%s := %s\n", nm, r.src(a))
		}
		args := strings.Join(names, ", ")
		if call.Ellipsis.IsValid() {
			args += "..."
		}
		fmt.Fprintf(&b, "vsched.Go(func() { _gf(%s) })\n}", args)
		return r.parseStmts(b.String())[0]
	case *ast.SendStmt:
		r.usedV = true
		r.count("send")
		return r.parseStmts(fmt.Sprintf("vsched.Send(%s, %s)", r.src(s.Chan), r.src(s.Value)))[0]
	case *ast.UnaryExpr:
		if s.Op != token.ARROW {
			return n
		}
		r.usedV = true
		if unaryTimer {
			die(2, "%s: receive from a timer channel outside select is not supported", r.fileName)
		}
		fn := "Recv"
		if unaryForeign {
			fn = "RecvOnly1"
		}
		if r.recv2[s] {
			fn = "Recv2"
			if unaryForeign {
				fn = "RecvOnly"
			}
		}
		r.count("recv")
		return r.parseExpr(fmt.Sprintf("vsched.%s(%s)", fn, r.src(s.X)))
	case *ast.CallExpr:
		if lenOfChan {
			r.usedV = true
			r.count("lenchan")
			return r.parseExpr(fmt.Sprintf("vsched.Len(%s)", r.src(s.Args[0])))
		}
		if closeIsBuiltin {
			r.usedV = true
			r.count("close")
			return r.parseExpr(fmt.Sprintf("vsched.Close(%s)", r.src(s.Args[0])))
		}
		if sel, ok := s.Fun.(*ast.SelectorExpr); ok {
			if id, ok := sel.X.(*ast.Ident); ok && id.Name == "time" && r.job.Sync {
				switch sel.Sel.Name {
				case "Sleep":
					r.usedV = true
					r.count("sleep")
					return r.parseExpr(fmt.Sprintf("vsched.Sleep(%s)", r.src(s.Args[0])))
				}
			}
		}
	case *ast.RangeStmt:
		if rangeIsChan {
			r.usedV = true
			r.count("rangechan")
			if rangeForeign {
				die(2, "%s: range over a foreign channel is not supported", r.fileName)
			}
			key := "_"
			if s.Key != nil {
				key = r.src(s.Key)
			}
			tok := ":="
			pre := ""
			if s.Tok == token.ASSIGN {
				// for v = range ch
				pre = "var _rok bool\n"
				tok = "="
			}
			code := fmt.Sprintf("for {\n%s%s, _rok %s vsched.Recv2(%s)\nif !_rok {\nbreak\n}\n}", pre, key, tok, r.src(s.X))
			fs := r.parseStmts(code)[0].(*ast.ForStmt)
			fs.Body.List = append(fs.Body.List, s.Body.List...)
			return fs
		}
		if rangeIsMap && r.job.MapRange && r.mapRangeWanted(r.src(s.X)) {
			r.usedV = true
			r.count("rangemap")
			if s.Tok == token.ASSIGN {
				die(2, "%s: `for k = range map` is not supported", r.fileName)
			}
			switch s.X.(type) {
			case *ast.Ident, *ast.SelectorExpr:
			default:
				die(2, "%s: range over a non-trivial map expression is not supported", r.fileName)
			}
			m := r.src(s.X)
			key := "_mk"
			if s.Key != nil && r.src(s.Key) != "_" {
				key = r.src(s.Key)
			}
			var code string
			if s.Value != nil && r.src(s.Value) != "_" {
				code = fmt.Sprintf("for _, %s := range vsched.MapKeys(%s) {\n%s, _mok := %s[%s]\nif !_mok {\ncontinue\n}\n}", key, m, r.src(s.Value), m, key)
			} else {
				code = fmt.Sprintf("for _, %s := range vsched.MapKeys(%s) {\nif _, _mok := %s[%s]; !_mok {\ncontinue\n}\n}", key, m, m, key)
			}
			fs := r.parseStmts(code)[0].(*ast.RangeStmt)
			fs.Body.List = append(fs.Body.List, s.Body.List...)
			return fs
		}
	}
	return n
}

func (r *rewriter) mapRangeWanted(expr string) bool {
	if len(r.job.MapRangeOnly) == 0 {
		return true
	}
	for _, e := range r.job.MapRangeOnly {
		if e == expr {
			return true
		}
	}
	r.count("rangemap-left-alone")
	return false
}

func (r *rewriter) rwSelect(s *ast.SelectStmt) ast.Node {
	r.usedV = true
	r.count("select")
	id := r.tmpN
	r.tmpN++
	var hoist strings.Builder
	var cases []string
	type cl struct {
		head string
		body []ast.Stmt
	}
	var clauses []cl
	for i, c := range s.Body.List {
		cc := c.(*ast.CommClause)
		// rewrite the body first (nested constructs)
		for j, st := range cc.Body {
			cc.Body[j] = r.rw(st).(ast.Stmt)
		}
		chv := fmt.Sprintf("_sc%d_%d", id, i)
		head := fmt.Sprintf("_, _ = _sv%d, _sok%d\n", id, id)
		switch comm := cc.Comm.(type) {
		case nil:
			cases = append(cases, "vsched.CaseDefault()")
		case *ast.SendStmt:
			fmt.Fprintf(&hoist, "%s := %s\n", chv, r.src(r.rw(comm.Chan)))
			cases = append(cases, fmt.Sprintf("vsched.CaseSend(%s, %s)", chv, r.src(r.rw(comm.Value))))
		case *ast.ExprStmt:
			u, ok := comm.X.(*ast.UnaryExpr)
			if !ok || u.Op != token.ARROW {
				die(2, "%s: unsupported select case", r.fileName)
			}
			cases = append(cases, r.recvCase(u, chv, &hoist))
		case *ast.AssignStmt:
			u, ok := comm.Rhs[0].(*ast.UnaryExpr)
			if !ok || u.Op != token.ARROW || len(comm.Rhs) != 1 {
				die(2, "%s: unsupported select case", r.fileName)
			}
			foreign := r.foreign(u.X)
			cs := r.recvCase(u, chv, &hoist)
			cases = append(cases, cs)
			if strings.HasPrefix(cs, "vsched.CaseTimer") {
				die(2, "%s: select case binding a timer value is not supported", r.fileName)
			}
			conv := "Conv"
			if foreign {
				conv = "ConvOnly"
			}
			tok := comm.Tok.String()
			if len(comm.Lhs) == 1 {
				head += fmt.Sprintf("%s %s vsched.%s(%s, _sv%d)\n", r.src(comm.Lhs[0]), tok, conv, chv, id)
			} else {
				head += fmt.Sprintf("%s, %s %s vsched.%s(%s, _sv%d), _sok%d\n", r.src(comm.Lhs[0]), r.src(comm.Lhs[1]), tok, conv, chv, id, id)
			}
		default:
			die(2, "%s: unsupported select case %T", r.fileName, comm)
		}
		clauses = append(clauses, cl{head, cc.Body})
	}
	var b strings.Builder
	b.WriteString("{\n")
	b.WriteString(hoist.String())
	fmt.Fprintf(&b, "switch _si%d, _sv%d, _sok%d := vsched.Select(%s); _si%d {\n", id, id, id, strings.Join(cases, ", "), id)
	for i, c := range clauses {
		fmt.Fprintf(&b, "case %d:\n%s", i, c.head)
	}
	b.WriteString("}\n}")
	blk := r.parseStmts(b.String())[0].(*ast.BlockStmt)
	sw := blk.List[len(blk.List)-1].(*ast.SwitchStmt)
	for i, c := range clauses {
		ccl := sw.Body.List[i].(*ast.CaseClause)
		ccl.Body = append(ccl.Body, c.body...)
	}
	return blk
}

func (r *rewriter) recvCase(u *ast.UnaryExpr, chv string, hoist *strings.Builder) string {
	if d, ok := r.isTimeAfterCall(u.X); ok {
		return fmt.Sprintf("vsched.CaseTimer(%s)", r.src(d))
	}
	_, _, elem, known := r.chanDir(u.X)
	if known && isTimeTime(elem) {
		return "vsched.CaseTimer(0)"
	}
	foreign := r.foreign(u.X)
	fmt.Fprintf(hoist, "%s := %s\n", chv, r.src(r.rw(u.X)))
	if foreign {
		return fmt.Sprintf("vsched.CaseRecvOnly(%s)", chv)
	}
	return fmt.Sprintf("vsched.CaseRecv(%s)", chv)
}
