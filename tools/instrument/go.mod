module verif/instrument

go 1.21
